"""Shared machinery of the qbee verification checks.

One check invocation = gen tables -> build Coq obligations -> build the
extracted model -> run correspondence suites (implementation worker vs
extracted model) -> replay known findings -> write evidence -> exit 0/1.
"""
import fcntl
import glob
import hashlib
import json
import os
import random
import re
import shutil
import subprocess
import sys
import time

VERIF = os.path.dirname(os.path.dirname(os.path.dirname(os.path.abspath(__file__))))
REPO = os.environ.get('QBEE_REPO', '/repo')
BUILD = os.path.join(VERIF, 'build')
COQ = os.path.join(VERIF, 'coq')
IMPL_PY = os.environ.get('QBEE_PYTHON', '/venv/bin/python')
NPROC = min(16, os.cpu_count() or 4)

ALLOWED_AXIOMS = {
    # standard-library axioms tolerated if a library pulls them in (DESIGN.md 7)
    'functional_extensionality_dep',
    'Eqdep.Eq_rect_eq.eq_rect_eq',
    'proof_irrelevance',
    'classic',
}


# --------------------------------------------------------------------------
# s-expressions

def sx_dump(o):
    """python int / bool / str / list -> sx text (str = list of code points)"""
    if isinstance(o, bool):
        return '1' if o else '0'
    if isinstance(o, int):
        return str(o)
    if isinstance(o, str):
        return '(' + ' '.join(str(ord(c)) for c in o) + ')'
    if isinstance(o, (list, tuple)):
        return '(' + ' '.join(sx_dump(x) for x in o) + ')'
    raise TypeError(f'cannot encode {o!r}')


def sx_load(text):
    toks = text.replace('(', ' ( ').replace(')', ' ) ').split()
    pos = 0

    def one():
        nonlocal pos
        t = toks[pos]
        pos += 1
        if t == '(':
            out = []
            while toks[pos] != ')':
                out.append(one())
            pos += 1
            return out
        return int(t)
    r = one()
    if pos != len(toks):
        raise ValueError('trailing tokens in sx')
    return r


def sx_gallina(o):
    """python structure -> Gallina term of type sx"""
    if isinstance(o, bool):
        return f'SZ {1 if o else 0}'
    if isinstance(o, int):
        return f'SZ ({o})'
    if isinstance(o, str):
        return 'SL [' + '; '.join(f'SZ {ord(c)}' for c in o) + ']'
    return 'SL [' + '; '.join(sx_gallina(x) for x in o) + ']'


def s2l(s):
    return [ord(c) for c in s]


def l2s(l):
    return ''.join(chr(c) for c in l)


# --------------------------------------------------------------------------
# build

class BuildError(Exception):
    def __init__(self, what, log):
        super().__init__(what)
        self.what = what
        self.log = log


def _run(cmd, cwd=None, timeout=900, env=None, input=None):
    p = subprocess.run(cmd, cwd=cwd, timeout=timeout, env=env, input=input,
                       stdout=subprocess.PIPE, stderr=subprocess.STDOUT, text=True)
    return p.returncode, p.stdout


class Lock:
    def __enter__(self):
        os.makedirs(BUILD, exist_ok=True)
        self.f = open(os.path.join(BUILD, 'lock'), 'w')
        fcntl.flock(self.f, fcntl.LOCK_EX)
        return self

    def __exit__(self, *a):
        fcntl.flock(self.f, fcntl.LOCK_UN)
        self.f.close()


def coq_project():
    """(re)write _CoqProject and Makefile when the set of .v files changed"""
    files = []
    for d in ('Base', 'Gen', 'Models', 'Src', 'Proofs', 'Props', 'Extract'):
        files += sorted(glob.glob(os.path.join(COQ, d, '*.v')))
    rel = [os.path.relpath(f, COQ) for f in files]
    text = ('-Q . QV\n'
            '-arg -w -arg -notation-overridden,-deprecated-hint-without-locality,-deprecated\n'
            + '\n'.join(rel) + '\n')
    p = os.path.join(COQ, '_CoqProject')
    old = open(p).read() if os.path.exists(p) else ''
    if old != text or not os.path.exists(os.path.join(COQ, 'Makefile')):
        open(p, 'w').write(text)
        rc, out = _run(['coq_makefile', '-f', '_CoqProject', '-o', 'Makefile'], cwd=COQ)
        if rc != 0:
            raise BuildError('coq_makefile', out)


def coq_make(targets, timeout=1500):
    coq_project()
    rc, out = _run(['timeout', str(timeout), 'make', f'-j{NPROC}'] + targets, cwd=COQ,
                   timeout=timeout + 30)
    return rc == 0, out


def coq_props(prop):
    """compile Props/<prop>.v afresh; returns (ok, theorems, assumptions, log).
    theorems: names declared with Theorem in the file; assumptions: name -> list
    of axioms printed by Print Assumptions ([] = closed)."""
    src = os.path.join(COQ, 'Props', f'{prop}.v')
    text = open(src).read()
    theorems = re.findall(r'^\s*Theorem\s+([A-Za-z0-9_\']+)', text, re.M)
    rc, out = _run(['timeout', '600', 'coqc', '-Q', '.', 'QV', '-w',
                    '-notation-overridden,-deprecated-hint-without-locality,-deprecated',
                    f'Props/{prop}.v'], cwd=COQ, timeout=630)
    assumptions = {}
    printed = re.findall(r'^\s*Print Assumptions\s+([A-Za-z0-9_\']+)', text, re.M)
    # coqc prints one block per Print Assumptions, in order
    blocks = re.split(r'(?=Closed under the global context|Axioms:)', out)
    blocks = [b for b in blocks if b.startswith('Closed under') or b.startswith('Axioms:')]
    for name, b in zip(printed, blocks):
        if b.startswith('Closed under'):
            assumptions[name] = []
        else:
            # a name at column 0 followed by ':' starts a new axiom; its
            # (possibly multi-line) type is indented
            axs = re.findall(r'^([A-Za-z_][A-Za-z0-9_\'.]*)\s*:', b[len('Axioms:'):], re.M)
            assumptions[name] = axs
    return rc == 0, theorems, assumptions, out


def build_model(xname, timeout=600):
    """build/x/<xname>/model from coq/Extract/X<xname>.v (+ ocaml/driver.ml)"""
    d = os.path.join(BUILD, 'x', xname)
    os.makedirs(d, exist_ok=True)
    ok, log = coq_make([f'Extract/X{xname}.vo'])
    if not ok:
        raise BuildError(f'Extract/X{xname}.vo', log)
    ml = os.path.join(d, 'model.ml')
    if not os.path.exists(ml):
        # .vo up to date but output removed: force re-extraction
        os.remove(os.path.join(COQ, 'Extract', f'X{xname}.vo'))
        ok, log = coq_make([f'Extract/X{xname}.vo'])
        if not ok or not os.path.exists(ml):
            raise BuildError(f'Extract/X{xname}.vo', log)
    drv = os.path.join(VERIF, 'ocaml', 'driver.ml')
    h = hashlib.sha256()
    for f in (ml, drv):
        h.update(open(f, 'rb').read())
    stamp = os.path.join(d, 'stamp')
    exe = os.path.join(d, 'model')
    if os.path.exists(exe) and os.path.exists(stamp) and open(stamp).read() == h.hexdigest():
        return exe
    shutil.copy(drv, os.path.join(d, 'driver.ml'))
    rc, out = _run(['ocamlfind', 'ocamlopt', '-O2', '-w', '-a', 'model.mli', 'model.ml',
                    'driver.ml', '-o', 'model'], cwd=d, timeout=timeout)
    if rc != 0:
        raise BuildError('ocamlopt ' + xname, out)
    open(stamp, 'w').write(h.hexdigest())
    return exe


def _chunks(l, n):
    k = max(1, (len(l) + n - 1) // n)
    return [l[i:i + k] for i in range(0, len(l), k)]


def run_model(exe, jobs, timeout=5400, par=NPROC):
    """jobs: list of python structures; returns list of parsed results
    ('!...' strings for driver-level failures)"""
    if not jobs:
        return []
    chunks = _chunks(jobs, par if len(jobs) >= 64 else 1)
    procs = []
    for ch in chunks:
        text = '\n'.join(sx_dump(j) for j in ch) + '\n'
        p = subprocess.Popen(['bash', '-c', f'ulimit -s unlimited 2>/dev/null; exec {exe}'],
                             stdin=subprocess.PIPE, stdout=subprocess.PIPE,
                             stderr=subprocess.PIPE, text=True)
        procs.append((p, text, len(ch)))
    # feed all, then collect (threads keep pipes from blocking)
    import threading
    outs = [None] * len(procs)

    def work(i):
        p, text, n = procs[i]
        try:
            o, e = p.communicate(text, timeout=timeout)
        except subprocess.TimeoutExpired:
            p.kill()
            o, e = p.communicate()
            o = (o or '')
        lines = [l for l in o.split('\n') if l != '']
        lines += ['!model-died'] * (n - len(lines))
        outs[i] = lines[:n]
    ths = [threading.Thread(target=work, args=(i,)) for i in range(len(procs))]
    for t in ths:
        t.start()
    for t in ths:
        t.join()
    res = []
    for lines in outs:
        for l in lines:
            res.append(l if l.startswith('!') else sx_load(l))
    _recheck_collect(exe, jobs, res)
    return res


# --------------------------------------------------------------------------
# kernel re-evaluation of a sample of what the extracted models answered
# (extraction, the OCaml compiler and ocaml/driver.ml are outside the kernel:
# a deterministic sample of every model's (job, answer) pairs is evaluated
# again by `vm_compute` inside Coq at the end of each check and compared
# with the answer of the extracted program)

RECHECK_PER_MODEL = int(os.environ.get('VERIF_RECHECK', '12'))
RECHECK_MAX_CHARS = 5000
_RECHECK = {}     # xname -> {'seen': n, 'rng': Random, 'keep': [(job, out)]}


def _recheck_collect(exe, jobs, res):
    m = re.search(r'/x/([A-Za-z0-9_]+)/model$', exe)
    if not m or RECHECK_PER_MODEL <= 0:
        return
    st = _RECHECK.setdefault(m.group(1), {'seen': 0, 'rng': random.Random(12345), 'keep': []})
    for j, o in zip(jobs, res):
        if isinstance(o, str):
            continue
        try:
            size = len(sx_dump(j)) + len(sx_dump(o))
        except TypeError:
            continue
        if size > RECHECK_MAX_CHARS:
            continue
        st['seen'] += 1
        if len(st['keep']) < RECHECK_PER_MODEL:
            st['keep'].append((j, o))
        else:                                   # reservoir sampling
            k = st['rng'].randrange(st['seen'])
            if k < RECHECK_PER_MODEL:
                st['keep'][k] = (j, o)


def kernel_recheck(prop):
    """-> (summary dict, list of mismatch descriptions)"""
    from concurrent.futures import ThreadPoolExecutor
    d = os.path.join(BUILD, 'recheck', prop)
    shutil.rmtree(d, ignore_errors=True)
    os.makedirs(d, exist_ok=True)
    work = []
    for xname, st in sorted(_RECHECK.items()):
        for i, (j, o) in enumerate(st['keep']):
            path = os.path.join(d, f'R{xname}{i}.v')
            open(path, 'w').write(
                'From Coq Require Import ZArith List.\nImport ListNotations.\n'
                f'From QV Require Import Sx.\nFrom QV Require X{xname}.\nOpen Scope Z_scope.\n'
                f'Definition job : sx := {sx_gallina(j)}.\n'
                f'Definition answer : sx := {sx_gallina(o)}.\n'
                'Goal True.\n'
                f'  let x := eval vm_compute in (X{xname}.entry job) in\n'
                '  let y := eval vm_compute in answer in\n'
                '  first [ constr_eq x y; idtac "RECHECK-OK" | idtac "RECHECK-MISMATCH" x ].\n'
                '  exact I.\nQed.\n')
            work.append((xname, i, path))

    def one(w):
        xname, i, path = w
        try:
            rc, out = _run(['timeout', '60', 'coqc', '-Q', COQ, 'QV', '-w', '-all', path],
                           cwd=d, timeout=90)
        except subprocess.TimeoutExpired:
            return w, 'timeout', ''
        if 'RECHECK-OK' in out and rc == 0:
            return w, 'ok', ''
        if 'RECHECK-MISMATCH' in out:
            return w, 'mismatch', out[-1500:]
        if rc == 124:
            return w, 'timeout', ''
        return w, 'error', out[-1500:]
    summary, bad = {}, []
    with Lock():
        with ThreadPoolExecutor(max_workers=NPROC) as ex:
            for (xname, i, path), verdict, out in ex.map(one, work):
                s = summary.setdefault(xname, {'sampled_from': _RECHECK[xname]['seen'],
                                               'ok': 0, 'timeout': 0, 'mismatch': 0, 'error': 0})
                s[verdict] += 1
                if verdict in ('mismatch', 'error'):
                    j, o = _RECHECK[xname]['keep'][i]
                    bad.append({'model': xname, 'verdict': verdict, 'job': j,
                                'extracted_answer': o, 'coq_output': out})
    shutil.rmtree(d, ignore_errors=True)
    return summary, bad


# --------------------------------------------------------------------------
# implementation worker

def impl_env(hashseed='0'):
    env = dict(os.environ)
    env['PYTHONPATH'] = REPO + os.pathsep + os.path.join(VERIF, 'tools')
    env['PYTHONHASHSEED'] = str(hashseed)
    env['QBEE_VERIF'] = '1'
    env['PYTHONDONTWRITEBYTECODE'] = '1'
    return env


def run_impl(fn, cases, timeout=5400, par=NPROC, hashseed='0', cwd=None):
    """run tools/implfns function `fn` on every case in worker subprocesses.
    Returns list of results (python structures); a worker crash/timeout gives
    {'harness': 'worker-died'} for the unanswered cases."""
    if not cases:
        return []
    chunks = _chunks(cases, par if len(cases) >= 32 else 1)
    import threading
    outs = [None] * len(chunks)

    def work(i):
        ch = chunks[i]
        text = json.dumps({'fn': fn, 'cases': ch})
        p = subprocess.Popen([IMPL_PY, os.path.join(VERIF, 'tools', 'impl_worker.py')],
                             stdin=subprocess.PIPE, stdout=subprocess.PIPE,
                             stderr=subprocess.PIPE, text=True, env=impl_env(hashseed),
                             cwd=cwd or REPO)
        try:
            o, e = p.communicate(text, timeout=timeout)
        except subprocess.TimeoutExpired:
            p.kill()
            o, e = p.communicate()
        res = []
        for l in (o or '').split('\n'):
            if l.startswith('R '):
                try:
                    res.append(json.loads(l[2:]))
                except ValueError:
                    break       # a line truncated by a killed worker
        if len(res) < len(ch):
            tail = (e or '')[-2000:]
            res += [{'harness': 'worker-died', 'stderr': tail}] * (len(ch) - len(res))
        outs[i] = res[:len(ch)]
    ths = [threading.Thread(target=work, args=(i,)) for i in range(len(chunks))]
    for t in ths:
        t.start()
    for t in ths:
        t.join()
    return [r for o in outs for r in o]


# --------------------------------------------------------------------------
# known findings

def load_findings(prop):
    """KNOWN_FINDINGS.json is the committed known-findings file; it is assembled
    by tools/mkfindings.py from the per-property fragments findings/*.json and
    never written at check time."""
    p = os.path.join(VERIF, 'KNOWN_FINDINGS.json')
    out = []
    if os.path.exists(p):
        out += [f for f in json.load(open(p)) if f['property'] == prop]
    seen = {f['id'] for f in out}
    for frag in sorted(glob.glob(os.path.join(VERIF, 'findings', '*.json'))):
        for f in json.load(open(frag)):
            if f['property'] == prop and f['id'] not in seen:
                out.append(f)
                seen.add(f['id'])
    return out


# --------------------------------------------------------------------------
# the check context

class Ctx:
    def __init__(self, prop, tier, seed, level, design_ref=''):
        self.prop = prop
        self.tier = tier
        self.seed = seed
        self.level = level
        self.t0 = time.time()
        self.rng = random.Random(seed)
        self.evaluations = 0
        self.nontrivial = set()
        self.samples = []
        self.suites = {}
        self.rule = []
        self.obligations = []     # names
        self.discharged = []      # names
        self.assumptions = {}
        self.trusted_base = []
        self.checker_cmd = ''
        self.violations = []      # dicts {signature, detail, replay?, found_input}
        self.known_hits = {}      # finding id -> count
        self.broken = []          # theorem / correspondence names that no longer check
        self.findings = load_findings(prop)
        for f in glob.glob(os.path.join(VERIF, 'replays', f'{prop}-*.json')):
            os.remove(f)
        self.extra = {}
        self.dist = {}

    # ---- proof obligations
    def prove(self, targets=None, extra_obligations=()):
        """build Props/<prop>.vo and dependencies; record obligations"""
        prop = self.prop
        self.checker_cmd = (f'cd {COQ} && make -j{NPROC} Props/{prop}.vo && '
                            f'coqc -Q . QV Props/{prop}.v  (Coq 8.16.1, full .vo build)')
        with Lock():
            # translator tie (T-gen): coq/Gen/Instrs.v is regenerated from the imported
            # repository on every run (rewritten only when its content changes)
            try:
                sys.path.insert(0, os.path.join(VERIF, 'tools'))
                import gen_tables
                gen_tables.main(REPO)
                self.extra['gen_tables'] = 'coq/Gen/Instrs.v regenerated from ' + REPO
            except Exception as e:      # GenError, import failure of the repository
                self.broken.append(f'translator tie gen_tables failed: {str(e)[-400:]}')
            ok, log = coq_make([f'Props/{prop}.vo'] + list(targets or []))
            if ok:
                ok2, thms, assum, out = coq_props(prop)
            else:
                src = open(os.path.join(COQ, 'Props', f'{prop}.v')).read()
                thms = re.findall(r'^\s*Theorem\s+([A-Za-z0-9_\']+)', src, re.M)
                ok2, assum, out = False, {}, log
        self.obligations = list(thms) + list(extra_obligations)
        self.assumptions = assum
        if ok and ok2:
            for t in thms:
                ax = assum.get(t)
                if ax is None:
                    self.broken.append(f'theorem {t}: no Print Assumptions output')
                elif any(a not in ALLOWED_AXIOMS for a in ax):
                    self.broken.append(f'theorem {t}: depends on non-allowed axioms {ax}')
                else:
                    self.discharged.append(t)
        else:
            m = re.search(r'File "\./([^"]+)", line (\d+)', out)
            where = f'{m.group(1)}:{m.group(2)}' if m else 'unknown file'
            errtxt = out[-1500:]
            self.broken.append(f'Coq build of Props/{prop}.v failed at {where}')
            self.extra['coq_error_tail'] = errtxt
        return ok and ok2

    def model(self, xname):
        with Lock():
            return build_model(xname)

    # ---- correspondence
    def count(self, suite, n, nontrivial_keys=()):
        self.evaluations += n
        self.suites[suite] = self.suites.get(suite, 0) + n
        for k in nontrivial_keys:
            self.nontrivial.add((suite, k))

    def sample(self, s):
        if len(self.samples) < 12:
            self.samples.append(s)

    def bump(self, key, n=1):
        self.dist[key] = self.dist.get(key, 0) + n

    def report(self, signature, detail, found_input=True):
        """a disagreement / spec failure.  Known-finding signatures are
        announced and do not count as violations."""
        for f in self.findings:
            if f.get('status') == 'open' and re.fullmatch(f['signature'], signature):
                self.known_hits.setdefault(f['id'], []).append(detail)
                return 'known'
        self.violations.append({'signature': signature, 'detail': detail,
                                'found_input': found_input})
        return 'violation'

    # ---- finish
    def finish(self, explanation=''):
        os.makedirs(os.path.join(VERIF, 'evidence'), exist_ok=True)
        os.makedirs(os.path.join(VERIF, 'replays'), exist_ok=True)
        if _RECHECK and not any('Coq build' in b for b in self.broken):
            summary, bad = kernel_recheck(self.prop)
            self.extra['kernel_recheck'] = summary
            self.extra['kernel_recheck_rule'] = (
                f'deterministic reservoir sample of at most {RECHECK_PER_MODEL} (job, answer) pairs '
                f'per extracted model (pairs up to {RECHECK_MAX_CHARS} characters) re-evaluated by '
                'vm_compute inside Coq and compared with the answer of the extracted OCaml program; '
                'timeout = 60 s per pair, counted, not judged')
            for b in bad[:3]:
                self.broken.append(f"extraction tie: kernel evaluation of X{b['model']}.entry "
                                   f"{b['verdict']} against the extracted program's answer")
            if bad:
                self.extra['kernel_recheck_failures'] = bad[:3]
        lines = []
        for f in self.findings:
            if f.get('status') == 'open' and f['id'] in self.known_hits:
                lines.append(f"KNOWN-FINDING: property={self.prop} {f['id']} {f['description']}")
        exit_code = 0
        # violations with a concrete input, grouped by signature
        seen = {}
        for v in self.violations:
            seen.setdefault(v['signature'], []).append(v)
        n = 0
        for sig, vs in seen.items():
            n += 1
            path = os.path.join(VERIF, 'replays', f'{self.prop}-{n}.json')
            json.dump({'property': self.prop, 'signature': sig, 'count': len(vs),
                       'first': vs[0]['detail'], 'tier': self.tier, 'seed': self.seed,
                       'broken_obligations': self.broken},
                      open(path, 'w'), indent=1, default=str)
            suffix = '' if vs[0]['found_input'] else ' no-failing-input-found'
            lines.append(f'VIOLATION property={self.prop} replay={path}{suffix}')
            exit_code = 1
        if self.broken and not any(v['found_input'] for v in self.violations):
            # a proof obligation / tie is broken and no concrete failing input was found
            n += 1
            path = os.path.join(VERIF, 'replays', f'{self.prop}-{n}.json')
            json.dump({'property': self.prop, 'no_longer_checks': self.broken,
                       'detail': self.extra.get('coq_error_tail', ''),
                       'tier': self.tier, 'seed': self.seed}, open(path, 'w'), indent=1)
            lines.append(f'VIOLATION property={self.prop} replay={path} no-failing-input-found')
            exit_code = 1
        elif self.broken:
            exit_code = 1
        cov = {
            'evaluations': self.evaluations,
            'distinct_nontrivial': len(self.nontrivial),
            'rule': ' | '.join(self.rule),
            'samples': self.samples or ['(no correspondence case ran)'],
            'obligations': len(self.obligations),
            'discharged': len(self.discharged),
            'obligation_names': self.obligations,
            'assumptions': self.assumptions,
            'checker_cmd': self.checker_cmd,
            'trusted_base': self.trusted_base,
            'suites': self.suites,
            'input_distribution': self.dist,
            'known_findings_reproduced': {k: len(v) for k, v in self.known_hits.items()},
            'violations': len(self.violations),
            'broken': self.broken,
            'explanation': explanation,
        }
        cov.update(self.extra)
        ev = {'property_id': self.prop, 'tier': self.tier, 'seed': self.seed,
              'level': self.level, 'coverage': cov,
              'wall_s': round(time.time() - self.t0, 2)}
        json.dump(ev, open(os.path.join(VERIF, 'evidence', f'{self.prop}.json'), 'w'),
                  indent=1, default=str)
        for l in lines:
            print(l)
        print(f'{self.prop} tier={self.tier} seed={self.seed} evaluations={self.evaluations} '
              f'obligations={len(self.discharged)}/{len(self.obligations)} '
              f'violations={len(self.violations)} known={len(self.known_hits)} '
              f'wall={ev["wall_s"]}s exit={exit_code}')
        return exit_code


def diff_suite(ctx, suite, cases, impl_fn, exe, model_job, norm_impl, judge,
               key=None, describe=None, hashseed='0', impl_case=None):
    """Run impl and model on all cases and hand every disagreement to `judge`.
    model_job(case) -> sx job; norm_impl(case, impl_result) -> structure in the
    model's output format; judge(case, impl_norm, model_out, raw) ->
    None | (signature, found_input) for a disagreement."""
    raws = run_impl(impl_fn, [impl_case(c) for c in cases] if impl_case else cases,
                    hashseed=hashseed)
    mouts = run_model(exe, [model_job(c) for c in cases])
    nagree = 0
    for c, raw, mo in zip(cases, raws, mouts):
        if isinstance(raw, dict) and raw.get('harness'):
            ctx.broken.append(f'correspondence {suite}: implementation worker failed: '
                              f'{raw.get("stderr", "")[-300:]}')
            break
        if isinstance(mo, str):
            ctx.broken.append(f'correspondence {suite}: model driver failed ({mo}) on {c!r}')
            break
        ni = norm_impl(c, raw)
        if ni == mo:
            nagree += 1
            continue
        sig = judge(c, ni, mo, raw)
        if sig is None:
            nagree += 1
            continue
        signature, found = sig
        ctx.report(signature, {'suite': suite, 'case': c, 'impl': ni, 'model': mo,
                               'impl_raw': raw,
                               'text': describe(c) if describe else None}, found)
    keys = set(key(c) for c in cases) if key else set()
    ctx.count(suite, len(cases), keys)
    if cases:
        c = cases[len(cases) // 2]
        ctx.sample({'suite': suite, 'case': describe(c) if describe else c})
    return nagree
