"""The operator/type matrix of C01: every binary operator x all 16 numeric type
pairs (+ strings) x operand values from a boundary set, as `PRINT a <op> b`
with both operands held in VARIABLES of the given types (nothing is constant
folded: the operands are READ from DATA)."""
from vlib.proggen import *

VALS = {
    I: [0, 1, -1, 2, -2, 7, -7, 32767, -32768, 32766, -32767],
    L: [0, 1, -1, 2, -2, 7, -7, 2147483647, -2147483648, 2147483646, -2147483647, 32768, -32769],
    S: [0, 1, -1, 2, -2, 7, -7, 0.5, -0.5, 1.5, 2.5, 1e10, -1e10, 32767.5, 3e38],
    D: [0, 1, -1, 2, -2, 7, -7, 0.5, -0.5, 1.5, 2.5, 1e10, -1e10, 2147483647.5, 1e308],
}
QUICK_VALS = {
    I: [0, -1, 2, -7, 32767, -32768],
    L: [0, 1, -2, 7, 2147483647, -2147483648],
    S: [0, -1, 2, 0.5, 2.5, 1e10],
    D: [0, 1, -7, -0.5, 1.5, 1e308],
}
STRS = ['', 'a', 'ab', 'b', 'A', 'a ']


def data_text(ty, v):
    if ty in (I, L):
        return str(v)
    if v == int(v) and abs(v) < 1e9:
        return str(int(v))
    t = repr(float(v))
    if 'e' in t:
        m, e = t.split('e')
        if m.endswith('.0'):
            m = m[:-2]
        return f'{m}E{int(e):+d}'
    return t


def cellv(ty, v):
    """the literal cell (sx) of value v at type ty, as the reference reads the DATA text"""
    if ty in (I, L):
        return [ty, v]
    if ty == S:
        return [S, fbits(sgl(v))]
    return [D, fbits(v)]


def cases(quick, rng=None):
    """all (op, lt, rt, a, b) of the matrix, numeric part"""
    vals = QUICK_VALS if quick else VALS
    out = []
    for op in range(1, 19):
        for lt in (I, L, S, D):
            for rt in (I, L, S, D):
                for a in vals[lt]:
                    for b in vals[rt]:
                        out.append((op, lt, rt, a, b))
    return out


def excluded(c):
    """operand pairs the implementation cannot evaluate in bounded time/memory:
    integer ** with a huge exponent (a totality matter, C07)"""
    op, lt, rt, a, b = c
    if op == 7 and lt in (I, L) and rt in (I, L) and abs(a) > 1 and b > 40000:
        return True
    return False


class Batch:
    """one program: READ the operands of each expression, PRINT it"""

    def __init__(self):
        self.p = Program()
        self.va = {t: self.p.new_var('a' + SUFFIX[t], t) for t in (I, L, S, D, STR)}
        self.vb = {t: self.p.new_var('b' + SUFFIX[t], t) for t in (I, L, S, D, STR)}
        self.data = []
        self.body = []
        self.cases = []
        self.stmt_of = []      # index into body of the PRINT of each case

    def add(self, c):
        op, lt, rt, a, b = c
        if lt == STR:
            self.body.append(s_assign([1, self.va[STR]], lit(STR, a)))
            self.body.append(s_assign([1, self.vb[STR]], lit(STR, b)))
        else:
            self.data += [data_text(lt, a), data_text(rt, b)]
            self.body.append(s_read([[1, self.va[lt]], [1, self.vb[rt]]]))
        pr = s_print([pe(bin_(op, var(self.va[lt]), var(self.vb[rt])))])
        self.body.append(pr)
        self.cases.append(c)
        self.stmt_of.append(pr)

    def add_unary(self, c):
        op, ty, a = c
        self.data += [data_text(ty, a)]
        self.body.append(s_read([[1, self.va[ty]]]))
        pr = s_print([pe(un(op, var(self.va[ty])))])
        self.body.append(pr)
        self.cases.append(c)
        self.stmt_of.append(pr)

    def finish(self):
        pro = []
        for i in range(0, len(self.data), 16):
            pro.append(s_data(self.data[i:i + 16]))
        self.p.main = pro + self.body
        src = self.p.layout()
        return {'src': src, 'sx': self.p.sx(), 'script': {'lines': [], 'rnd': [], 'timer': []},
                'cases': self.cases, 'lines': [s[1] for s in self.stmt_of],
                'stats': self.p.stats, 'hazards': []}


def describe(c):
    if len(c) == 3:
        op, ty, a = c
        return f"{ {1: 'NEG', 2: 'NOT'}[op] } {TYNAME[ty]} {a!r}"
    op, lt, rt, a, b = c
    return f'{TYNAME[lt]} {a!r} {OPS[op]} {TYNAME[rt]} {b!r}'
