"""T-isa: single instructions on constructed machine states.  Deterministic
enumeration of opcode x operand-type tuple x boundary values (well- and
ill-typed, short stacks), shared by the machine-level properties."""
import itertools
import struct


def fb(x):
    if x != x:
        return 0x7ff8000000000000
    return struct.unpack('>Q', struct.pack('>d', x))[0]


def sgl(x):
    return struct.unpack('>f', struct.pack('>f', x))[0]


INF = float('inf')
NAN = float('nan')

POOL = {
    1: [0, 1, -1, 2, 3, 255, 256, -32768, 32767, 14],
    2: [0, 1, -1, 70000, -2147483648, 2147483647, 2, 65536],
    3: [0.0, -0.0, 0.5, 1.5, 2.5, -2.5, 1e10, 3.4028234663852886e38, INF, -INF, NAN, 1e-45,
        32767.5, 2147483648.0, -7.0, 2.0],
    4: [0.0, 0.5, -1.5, 1e308, -1e308, 1e-320, INF, -INF, NAN, 2147483647.5, 32767.5,
        -32768.5, 3.5, 1e39, 2.0, -8.0, 0.1],
    5: ['', 'a', 'abc', ' x ', 'ABC', 'hello world', 'b', 'ab'],
}


def cell(ty, v):
    if ty == 3:
        return [3, fb(sgl(v))]      # a SINGLE cell only ever holds a binary32 value (CellValue rounds on construction)
    if ty == 4:
        return [4, fb(v)]
    if ty == 5:
        return [5, [ord(c) for c in v]]
    return [ty, v]


# ---- a fixed heap: 0 globals, 1 frame A, 2 frame B (current), 3 array 2x3 ----
def base_heap():
    g = [cell(1, 7), [], cell(5, 'g'), cell(2, 100000), [], cell(4, 2.5)]
    arr_hdr = [[], cell(2, 2), cell(2, 1), cell(2, 0), cell(2, 1), cell(2, -1), cell(2, 1)]
    arr = arr_hdr + [cell(1, 10 + i) if i != 2 else [] for i in range(6)]
    fa = [cell(1, 1), [7, 0, 0], [], cell(5, 'fa'), [7, 3, 0]]
    fbb = [[7, 1, 0], [], cell(1, 5), cell(3, 1.5), [7, 3, 0], cell(5, 's'), [7, 2, 6], cell(2, 9)]
    return [
        [0, g],
        [[1, -1, 20, 5, 5], fa],
        [[1, 1, 40, 30, 6], fbb],
        [2, arr],
    ]


REFS = [[7, 0, 0], [7, 0, 1], [7, 2, 2], [7, 2, 1], [7, 3, 0], [7, 3, 7], [7, 3, 9], [7, 0, 99],
        [7, 2, 5], [7, 0, 2]]

# opcode table for building code bytes: name -> (opcode, operand kinds)
OPS = None


def load_ops():
    """instruction table from the real qvm.instrs (through the impl worker)"""
    global OPS
    if OPS is None:
        import vlib
        OPS = vlib.run_impl('machfn.instr_table', [None])[0]
    return OPS


def enc_operand(kind, v):
    if kind == 'UInt8':
        return [v & 255]
    if kind in ('Int16', 'UInt16', 'StringLiteral'):
        return list(struct.pack('>H', v & 0xffff))
    if kind in ('Int32', 'Label'):
        return list(struct.pack('>I', v & 0xffffffff))
    if kind == 'Float32':
        return list(struct.pack('>f', v))
    if kind == 'Float64':
        return list(struct.pack('>d', v))
    raise ValueError(kind)


PAD = 8


def mk_module(name, operands, stmts=True):
    ops = load_ops()
    opc, kinds = ops[name]
    code = [100] * PAD + [opc]
    for k, v in zip(kinds, operands):
        code += enc_operand(k, v)
    code += [100] * PAD
    return {'code': code, 'literals': ['lit0', '', 'third'],
            'data': [['1', None, 'x'], ['2.5', '70000'], ['q']],
            'nglobals': 6,
            'stmts': [[0, 5], [5, 8], [8, 20], [8, 12], [20, 30]] if stmts else None}


def mk_state(stack, **kw):
    sd = {'pc': PAD, 'stack': stack, 'heap': base_heap(), 'cur': 2, 'halted': 0, 'reason': 1,
          'last_trap': 0, 'kw_ok': 1, 'ttarget': -1, 'active': 0, 'trapped_addr': 0, 'irq': 0,
          'dpart': 0, 'didx': 0, 'last_rnd': [],
          'script': {'lines': ['12, abc', '5'], 'rnd': [fb(0.25), fb(0.75)], 'timer': [fb(3.5)],
                     'inkey': ['k']}}
    sd.update(kw)
    return sd


def module_sx(md):
    data = [[[] if it is None else [it] for it in part] for part in md['data']]
    st = [] if md['stmts'] is None else [md['stmts']]
    return [md['code'], md['literals'], data, md['nglobals'], st]


def script_sx(sc):
    return [sc.get('lines', []), sc.get('rnd', []), sc.get('timer', []), sc.get('inkey', [])]


def state_sx(sd):
    return [sd['pc'], sd['stack'], sd['heap'], sd['cur'], sd['halted'], sd['reason'],
            sd['last_trap'], sd['kw_ok'], sd['ttarget'], sd['active'], sd['trapped_addr'],
            sd['irq'], sd['dpart'], sd['didx'], sd['last_rnd'], script_sx(sd['script'])]


# arity (cells consumed from the stack, top last) and interesting operand tuples per opcode
ARITY = {
    'abs': 1, 'add': 2, 'and': 2, 'asc': 1, 'chr': 1, 'cint': 1, 'clng': 1, 'cmp': 2, 'div': 2,
    'dupl': 1, 'eq': 1, 'eqv': 2, 'exp': 2, 'ge': 1, 'gt': 1, 'idiv': 2, 'ijmp': 1, 'int': 1,
    'imp': 2, 'jz': 1, 'lcase': 1, 'le': 1, 'lt': 1, 'ltrim': 1, 'mod': 2, 'mul': 2, 'ne': 1,
    'neg': 1, 'not': 1, 'ntos': 1, 'or': 2, 'pop': 1, 'rtrim': 1, 'sign': 1, 'space': 1,
    'sub': 2, 'strfind': 3, 'strleft': 2, 'strlen': 1, 'strmid': 3, 'strrep': 2, 'strright': 2,
    'swap': 2, 'swapprev': 3, 'ucase': 1, 'xor': 2, 'storeref': 2, 'refidx': 2, 'lbound': 2,
    'ubound': 2, 'retv': 2, 'ret': 1, 'frame': 3, 'storeg': 1, 'storel': 1, 'storeidxg': 1,
    'storeidxl': 1,
}
for s, d in itertools.product('%&!#', repeat=2):
    if s != d:
        ARITY[f'conv{s}{d}'] = 1
for t in '%&!#$':
    ARITY[f'deref{t}'] = 1

OPERANDS = {
    'allocarr': [(1, 1), (2, 1), (2, 3), (0, 1), (1, -1)],
    'arridx': [(2,), (1,), (3,), (0,)],
    'call': [(3,), (100,)],
    'errhand': [(0,), (1,), (12,)],
    'frame': [(0, 0), (1, 2), (2, 0), (3, 1)],
    'initarrg': [(0, 1, 1), (1, 2, 1), (3, 1, 2)],
    'initarrl': [(0, 1, 1), (2, 2, 1), (6, 1, 1)],
    'io': [(d, o) for d in (2, 3, 5, 6, 7, 8, 9, 4) for o in range(1, 10)
           if not (d == 4 and o > 1)],
    'jmp': [(3,), (1000,)], 'jz': [(3,)],
    'push%': [(0,), (-1 & 0xffff,), (32767,)], 'push&': [(70000,), (-5 & 0xffffffff,)],
    'push!': [(1.5,), (INF,)], 'push#': [(0.1,), (NAN,)],
    'push$': [(0,), (1,), (2,), (3,), (0xffff,)],
    'pushrefg': [(0,), (7,)], 'pushrefl': [(0,), (99,)],
    'storeg': [(0,), (5,), (6,), (65535,)], 'storel': [(0,), (7,), (8,)],
    'storeidxg': [(0, 1), (4, 2)], 'storeidxl': [(1, 1), (6, 2)],
}
for sc in 'gl':
    n = 6 if sc == 'g' else 8
    for t in '%&!#$@':
        OPERANDS[f'read{sc}{t}'] = [(i,) for i in range(n)] + [(n,), (65535,)]
        OPERANDS[f'readidx{sc}{t}'] = [(0, 1), (1, 0), (1, 3), (2, 2), (n - 1, 1), (0, 4)]


def type_tuples(n):
    kinds = [1, 2, 3, 4, 5, 7]
    return itertools.product(kinds, repeat=n)


def values_for(ty, k):
    if ty == 7:
        return REFS[:k]
    return POOL[ty][:k]


def stack_cases(name, arity, rich):
    """yield operand stacks (bottom -> top) for one opcode"""
    # short stacks
    for n in range(arity):
        yield [cell(1, 1)] * n
    per = 6 if rich else 3
    for tys in type_tuples(arity):
        pools = []
        for t in tys:
            vs = values_for(t, 16 if (rich and arity <= 2) else per)
            pools.append([(v if t == 7 else cell(t, v)) for v in vs])
        homog = len(set(tys)) == 1
        if arity == 1:
            for v in pools[0]:
                yield [v]
        elif arity == 2:
            if homog or (tys[0] in (1, 2, 3, 4) and tys[1] in (1, 2, 3, 4)) or 5 in tys:
                lim = 12 if homog and rich else (6 if homog else 2)
                for a in pools[0][:lim]:
                    for b in pools[1][:lim]:
                        yield [a, b]
            else:
                yield [pools[0][0], pools[1][0]]
        else:
            # arity 3: full value grid only for plausible tuples, one sample otherwise
            plausible = (tys in ((2, 5, 5), (5, 1, 1), (5, 1, 2), (1, 1, 1), (2, 2, 2))
                         or homog)
            if plausible:
                for a in pools[0][:3]:
                    for b in pools[1][:4]:
                        for c in pools[2][:4]:
                            yield [a, b, c]
            else:
                yield [pools[0][0], pools[1][0], pools[2][0]]
                yield [pools[0][-1], pools[1][1 % len(pools[1])], pools[2][-1]]


def gen_cases(rich=False):
    ops = load_ops()
    out = []
    for name in sorted(ops):
        opc, kinds = ops[name]
        arity = ARITY.get(name, 0)
        operand_sets = OPERANDS.get(name, [tuple(0 for _ in kinds)])
        for operands in operand_sets:
            md = mk_module(name, operands)
            stacks = list(stack_cases(name, arity, rich)) if arity else [[]]
            extra = []
            if name in ('io', 'allocarr', 'initarrl', 'initarrg', 'arridx', 'frame'):
                # device / array instructions: argument stacks of several shapes
                base = [cell(2, 0), cell(2, 1), cell(2, -1), cell(2, 1), cell(1, 3), cell(5, 'p'),
                        cell(1, 0), cell(1, 1), cell(1, 2), cell(1, 3)]
                extra = [base[:k] for k in range(0, len(base) + 1)]
                extra += [[cell(2, 1), cell(2, 0), [7, 3, 0]], [cell(2, 0), cell(2, 2), [7, 3, 0]],
                          [cell(2, 1), cell(2, -1), [7, 3, 0]], [cell(2, 1), [7, 3, 0]],
                          [cell(2, 5), cell(2, 0), [7, 3, 0]],
                          [cell(1, 0), cell(5, 'x'), cell(1, 2)],
                          [cell(1, 0), cell(1, 5), cell(1, 1), cell(1, 0), cell(5, 'q'), cell(1, 5)],
                          [cell(1, -1), cell(5, 'p? '), cell(1, -1), cell(1, 1), cell(1, 5), cell(1, 2)],
                          [cell(1, 0), cell(5, ''), cell(1, 0), cell(1, 2), cell(1, 1)],
                          [cell(3, 0.0)], [cell(3, -1.0)], [cell(3, 1.0)], [cell(1, 1)], [cell(1, 2)],
                          [cell(1, 3)], [cell(1, 4)], [cell(1, 5)], [cell(1, 9)],
                          [cell(2, 1047), cell(1, 255)], [cell(2, 1), cell(1, 256)],
                          [cell(2, 70000)], [cell(2, -1)],
                          [cell(1, 1), cell(1, 2), cell(1, -1), cell(1, -1), cell(1, -1)],
                          [cell(1, 13), cell(1, -1), cell(1, -1), cell(1, -1)],
                          [cell(1, 13), cell(1, -1), cell(1, 1), cell(1, -1)],
                          [cell(1, 7), cell(1, 1), cell(1, 15)], [cell(1, 80), cell(1, 25)],
                          [cell(5, 'cde')], [cell(1, 440), cell(2, 18)],
                          [cell(2, 30), [7, 0, 0]], [[7, 0, 0], cell(2, 30)]]
            for stck in stacks + extra:
                out.append({'op': name, 'module': md, 'state': mk_state(stck)})
    # handler / trap-state matrix on a few representative instructions
    for name, operands, stck in [('idiv', (), [cell(1, 1), cell(1, 0)]),
                                 ('add', (), [cell(1, 30000), cell(1, 30000)]),
                                 ('chr', (), [cell(1, 999)]),
                                 ('pop', (), []),
                                 ('errres', (), []), ('errresn', (), []), ('errget', (), []),
                                 ('errhand', (0,), []), ('errhand', (1,), []), ('errhand', (12,), []),
                                 ('ret', (), [cell(2, 3)]), ('retv', (), [cell(2, 3), cell(1, 4)]),
                                 ('retv', (), [cell(2, 3), [7, 0, 0]]), ('retv', (), [cell(2, 3), [7, 0, 1]]),
                                 ('halt', (), []), ('nop', (), []), ('errline', (), []),
                                 ('push0%', (), [])]:
        for stm in (True, False):
            md = mk_module(name, operands, stmts=stm)
            for tt in (-1, -2, 12):
                for act in (0, 1):
                    for lt, kw in ((0, 1), (14, 1), (7, 0), (3, 1)):
                        for ta in (0, 8, 9, 25, 100):
                            if ta not in (0, 8) and name not in ('errres', 'errresn', 'idiv'):
                                continue
                            for irq in (0, 1):
                                if irq and (lt or ta):
                                    continue
                                out.append({'op': name + '/h', 'module': md,
                                            'state': mk_state(stck, ttarget=tt, active=act,
                                                              last_trap=lt, kw_ok=kw,
                                                              trapped_addr=ta, irq=irq)})
    # invalid opcode, truncated operand, pc out of range, cur_frame None
    ops_used = {v[0] for v in ops.values()}
    bad = [b for b in range(256) if b not in ops_used][:6]
    for b in bad:
        md = mk_module('halt', ())
        md['code'][PAD] = b
        for tt in (-1, 12):
            out.append({'op': 'invalid', 'module': md, 'state': mk_state([], ttarget=tt)})
    md = mk_module('push&', (5,))
    md['code'] = md['code'][:PAD + 3]
    out.append({'op': 'trunc', 'module': md, 'state': mk_state([])})
    md = mk_module('halt', ())
    out.append({'op': 'pc-out', 'module': md, 'state': mk_state([], pc=len(md['code']))})
    for name, operands in (('readl%', (0,)), ('storel', (0,)), ('pushrefl', (0,)), ('ret', ()),
                           ('initarrl', (0, 1, 1)), ('frame', (0, 1)), ('readidxl%', (0, 1))):
        md = mk_module(name, operands)
        out.append({'op': name + '/nocur', 'module': md,
                    'state': mk_state([cell(2, 1), cell(2, 2), cell(2, 3)], cur=-1)})
    return out
