"""C05: generator of valid base programs, line classifier / context tracker,
fault catalogue and injectors.  Pure Python (no repository import): the real
compiler is only reached through tools/implfns/staticfn.py.

A base program is a list of source lines in a canonical style (upper-case
keywords, block keywords first on their line) so that the simple classifier
below is exact on them; the classification is cross-checked on every run against
the real grammar (staticfn.classify)."""
import re

# --------------------------------------------------------------------------
# base programs.  Identifiers starting with "zq" are reserved for injected code.

_P = []


def P(name, text):
    lines = [l.rstrip() for l in text.strip('\n').split('\n')]
    _P.append((name, lines))


P('assign_scalars', '''
a% = 1
b& = 100000
c! = 1.5
d# = 2.25
s$ = "hello"
e = a% + b&
s$ = s$ + "!"
PRINT a%; b&; c!; d#; s$; e
''')

P('arith_ops', '''
a% = 7
b% = 2
PRINT a% + b%, a% - b%, a% * b%
PRINT a% / b%, a% \\ b%, a% MOD b%
c# = a% ^ 2
PRINT c#, -a%, NOT a%
PRINT (a% AND b%) OR (a% XOR b%)
PRINT a% < b%, a% >= b%, a% <> b%
''')

P('if_block_simple', '''
x% = 3
IF x% > 2 THEN
  PRINT "big"
END IF
PRINT "done"
''')

P('if_else_chain', '''
x% = 3
IF x% = 1 THEN
  PRINT "one"
ELSEIF x% = 2 THEN
  PRINT "two"
ELSEIF x% = 3 THEN
  PRINT "three"
ELSE
  PRINT "many"
END IF
''')

P('if_single_line', '''
x% = 5
IF x% > 2 THEN PRINT "gt"
IF x% < 2 THEN PRINT "lt" ELSE PRINT "ge"
IF x% THEN y% = 1: z% = 2 ELSE y% = 3
PRINT y%; z%
''')

P('if_nested', '''
a% = 1
b% = 2
IF a% THEN
  IF b% THEN
    PRINT "both"
  ELSE
    PRINT "a"
  END IF
ELSE
  IF b% THEN
    PRINT "b"
  END IF
END IF
''')

P('for_simple', '''
t% = 0
FOR i% = 1 TO 10
  t% = t% + i%
NEXT i%
PRINT t%
''')

P('for_step_nested', '''
FOR i% = 10 TO 1 STEP -3
  FOR j% = 1 TO 2
    PRINT i% * j%
  NEXT j%
NEXT i%
FOR k = 1 TO 2
NEXT
''')

P('for_next_list', '''
FOR r% = 1 TO 2
  FOR c% = 1 TO 3
    PRINT r%; c%
NEXT c%, r%
PRINT "end"
''')

P('for_exit', '''
FOR i% = 1 TO 100
  IF i% > 5 THEN EXIT FOR
  PRINT i%
NEXT i%
''')

P('while_simple', '''
n% = 3
WHILE n% > 0
  PRINT n%
  n% = n% - 1
WEND
''')

P('do_forms', '''
n% = 0
DO WHILE n% < 3
  n% = n% + 1
LOOP
DO UNTIL n% = 0
  n% = n% - 1
LOOP
DO
  n% = n% + 1
LOOP WHILE n% < 3
DO
  n% = n% - 1
LOOP UNTIL n% = 0
PRINT n%
''')

P('do_exit', '''
n% = 0
DO
  n% = n% + 1
  IF n% = 4 THEN EXIT DO
LOOP
PRINT n%
''')

P('select_simple', '''
x% = 2
SELECT CASE x%
CASE 1
  PRINT "one"
CASE 2, 3
  PRINT "two or three"
CASE 4 TO 6
  PRINT "four..six"
CASE IS > 6
  PRINT "big"
CASE ELSE
  PRINT "other"
END SELECT
''')

P('select_string', '''
s$ = "b"
SELECT CASE s$
CASE "a"
  PRINT 1
CASE "b"
  PRINT 2
END SELECT
PRINT "after"
''')

P('select_nested', '''
x% = 1
y% = 2
SELECT CASE x%
CASE 1
  SELECT CASE y%
  CASE 2
    PRINT "1,2"
  CASE ELSE
    PRINT "1,?"
  END SELECT
CASE ELSE
  FOR i% = 1 TO 2
    PRINT i%
  NEXT i%
END SELECT
''')

P('goto_labels', '''
i% = 0
again:
i% = i% + 1
IF i% < 3 THEN GOTO again
GOTO fin
PRINT "skipped"
fin:
PRINT i%
''')

P('goto_linenos', '''
10 i% = 0
20 i% = i% + 1
30 IF i% < 3 THEN GOTO 20
40 PRINT i%
50 END
''')

P('gosub_return', '''
GOSUB hello
GOSUB hello
END
hello:
PRINT "hi"
RETURN
''')

P('data_read', '''
FOR i% = 1 TO 3
  READ v%
  PRINT v%
NEXT i%
RESTORE more
READ a$, b$
PRINT a$; b$
DATA 1, 2, 3
more:
DATA "x", y
''')

P('on_error', '''
ON ERROR GOTO handler
x% = 0
PRINT 10 / 2
ON ERROR GOTO 0
END
handler:
PRINT "err"
RESUME NEXT
''')

P('dim_scalars', '''
DIM a AS INTEGER
DIM b AS LONG, c AS SINGLE
DIM d AS DOUBLE
DIM s AS STRING
a = 1
b = 2
c = 3.5
d = 4.5
s = "str"
PRINT a; b; c; d; s
''')

P('dim_arrays', '''
DIM a(10) AS INTEGER
DIM m(1 TO 3, 1 TO 4) AS LONG
DIM n$(5)
a(1) = 5
m(2, 3) = 70000
n$(0) = "zero"
PRINT a(1); m(2, 3); n$(0)
PRINT LBOUND(a); UBOUND(m, 2)
''')

P('implicit_array', '''
FOR i% = 0 TO 10
  sq(i%) = i% * i%
NEXT i%
PRINT sq(3)
''')

P('const_defs', '''
CONST pi = 3.14159
CONST n% = 10
CONST greeting$ = "hi"
CONST twice = n% * 2
DIM arr(n%) AS INTEGER
PRINT pi * 2; n%; greeting$; twice
''')

P('deftype', '''
DEFINT A-C
DEFSTR S
DEFLNG L
DEFDBL D
a = 1
b = 2
s = "text"
l = 100000
d = 1.5
PRINT a + b; s; l; d
''')

P('type_record', '''
TYPE vec
  x AS INTEGER
  y AS INTEGER
END TYPE
DIM p AS vec
p.x = 3
p.y = 4
PRINT p.x * p.x + p.y * p.y
''')

P('type_nested_record', '''
TYPE inner
  v AS LONG
  w AS SINGLE
END TYPE
TYPE outer
  i AS inner
  n AS INTEGER
  t AS STRING
END TYPE
DIM o AS outer
o.i.v = 100000
o.i.w = 1.5
o.n = 7
o.t = "rec"
PRINT o.i.v; o.i.w; o.n; o.t
''')

P('type_array_of_records', '''
TYPE item
  id AS INTEGER
  price AS DOUBLE
END TYPE
DIM items(3) AS item
FOR i% = 0 TO 3
  items(i%).id = i%
  items(i%).price = i% * 1.5
NEXT i%
PRINT items(2).id; items(2).price
''')

P('sub_simple', '''
CALL greet
greet
END
SUB greet
  PRINT "hello"
END SUB
''')

P('sub_params', '''
x% = 1
show x%, "name"
CALL show(2, "two")
SUB show (n AS INTEGER, s AS STRING)
  PRINT n; s
END SUB
''')

P('sub_byref', '''
a% = 1
incr a%
incr (a%)
PRINT a%
SUB incr (v AS INTEGER)
  v = v + 1
END SUB
''')

P('sub_exit_static', '''
counter
counter
SUB counter
  STATIC n AS INTEGER
  n = n + 1
  IF n > 1 THEN EXIT SUB
  PRINT n
END SUB
''')

P('sub_locals_shared', '''
DIM SHARED total AS LONG
DIM local1 AS INTEGER
total = 5
addit 10
PRINT total
SUB addit (n AS INTEGER)
  DIM tmp AS LONG
  tmp = n
  total = total + tmp
END SUB
''')

P('sub_array_param', '''
DIM v(5) AS INTEGER
v(2) = 9
show v()
SUB show (a() AS INTEGER)
  PRINT a(2); UBOUND(a)
END SUB
''')

P('sub_record_param', '''
TYPE pt
  x AS INTEGER
  y AS INTEGER
END TYPE
DIM p AS pt
p.x = 1
setp p
PRINT p.x; p.y
SUB setp (q AS pt)
  q.y = q.x + 1
END SUB
''')

P('function_simple', '''
PRINT sq%(4)
y% = sq%(3) + 1
FUNCTION sq% (n AS INTEGER)
  sq% = n * n
END FUNCTION
''')

P('function_string', '''
PRINT twice$("ab")
FUNCTION twice$ (s AS STRING)
  twice$ = s + s
END FUNCTION
''')

P('function_recursive', '''
PRINT fact&(5)
FUNCTION fact& (n AS INTEGER)
  IF n <= 1 THEN
    fact& = 1
  ELSE
    fact& = n * fact&(n - 1)
  END IF
END FUNCTION
''')

P('function_exit', '''
PRINT first%(3)
FUNCTION first% (n AS INTEGER)
  first% = -1
  FOR i% = 1 TO n
    IF i% = 2 THEN
      first% = i%
      EXIT FUNCTION
    END IF
  NEXT i%
END FUNCTION
''')

P('function_noargs', '''
PRINT answer%
x% = answer% + 1
FUNCTION answer%
  answer% = 42
END FUNCTION
''')

P('declare_procs', '''
DECLARE SUB hello (n AS INTEGER)
DECLARE FUNCTION dbl% (n AS INTEGER)
hello dbl%(2)
SUB hello (n AS INTEGER)
  PRINT n
END SUB
FUNCTION dbl% (n AS INTEGER)
  dbl% = n * 2
END FUNCTION
''')

P('two_subs_calls', '''
a 1
SUB a (n AS INTEGER)
  IF n < 3 THEN b n + 1
  PRINT "a"; n
END SUB
SUB b (n AS INTEGER)
  a n + 1
  PRINT "b"; n
END SUB
''')

P('labels_in_sub', '''
work
SUB work
  i% = 0
top:
  i% = i% + 1
  IF i% < 3 THEN GOTO top
  GOSUB inner
  EXIT SUB
inner:
  PRINT i%
  RETURN
END SUB
''')

P('loops_in_sub', '''
runit 3
SUB runit (n AS INTEGER)
  FOR i% = 1 TO n
    j% = 0
    WHILE j% < i%
      j% = j% + 1
      DO
        k% = k% + 1
        IF k% > 2 THEN EXIT DO
      LOOP
    WEND
  NEXT i%
  PRINT k%
END SUB
''')

P('select_in_function', '''
PRINT kind$(2)
FUNCTION kind$ (n AS INTEGER)
  SELECT CASE n
  CASE 1
    kind$ = "one"
  CASE 2 TO 5
    kind$ = "few"
  CASE ELSE
    kind$ = "many"
  END SELECT
END FUNCTION
''')

P('deep_nesting', '''
FOR i% = 1 TO 2
  IF i% = 1 THEN
    DO
      WHILE w% < 2
        w% = w% + 1
        SELECT CASE w%
        CASE 1
          PRINT "w1"
        CASE ELSE
          IF w% THEN PRINT "w"
        END SELECT
      WEND
      EXIT DO
    LOOP
  ELSE
    PRINT "second"
  END IF
NEXT i%
''')

P('print_forms', '''
a% = 1
b$ = "x"
PRINT
PRINT a%, b$; a%;
PRINT "end"
PRINT USING "##.##"; 3.14159
PRINT USING "& is #"; b$; a%
''')

P('input_stmt', '''
INPUT "name"; n$
INPUT a%, b!
PRINT n$; a%; b!
''')

P('builtin_funcs', '''
s$ = "Hello"
PRINT LEN(s$); LEFT$(s$, 2); RIGHT$(s$, 2); MID$(s$, 2, 2)
PRINT ASC("A"); CHR$(66); STR$(12); VAL("3.5")
PRINT ABS(-2); INT(2.7); CINT(2.5); CLNG(70000.2)
PRINT UCASE$(s$); LCASE$(s$); INSTR(s$, "l"); SPACE$(2); STRING$(3, 65)
''')

P('string_ops', '''
a$ = "abc"
b$ = "abd"
IF a$ < b$ THEN PRINT "less"
IF a$ + "d" = "abcd" THEN PRINT "eq"
c$ = a$ + b$ + "x"
PRINT c$; LEN(c$)
''')

P('mixed_numeric', '''
i% = 3
l& = 70000
s! = 2.5
d# = 1.25
l& = i% * 1000
s! = i% / 2
d# = s! + l&
i% = d# - 70000
PRINT i%; l&; s!; d#
''')

P('numeric_literals', '''
a% = 32767
b& = 2147483647
c! = 1.5E+10
d# = 1.5D+100
h% = &H7FFF
o% = &O17
g& = &H10000
e! = 3!
f# = 4#
PRINT a%; b&; c!; d#; h%; o%; g&; e!; f#
''')

P('comments_colons', '''
REM a comment
x% = 1: y% = 2 ' trailing comment
PRINT x%: PRINT y%
' whole-line comment
z% = x% + y%: PRINT z%
''')

P('labels_and_blocks', '''
start:
FOR i% = 1 TO 2
inner: PRINT i%
NEXT i%
100 WHILE q% < 1
110 q% = q% + 1
120 WEND
GOTO done
done: PRINT "ok"
''')

P('shared_array_sub', '''
DIM SHARED tbl(4) AS INTEGER
fill
PRINT tbl(2)
SUB fill
  FOR i% = 0 TO 4
    tbl(i%) = i% * 2
  NEXT i%
END SUB
''')

P('const_in_sub', '''
CONST limit% = 3
count
SUB count
  CONST stepv% = 1
  FOR i% = 1 TO limit% STEP stepv%
    PRINT i%
  NEXT i%
END SUB
''')

P('function_array_record', '''
TYPE acc
  total AS LONG
  cnt AS INTEGER
END TYPE
DIM d(3) AS INTEGER
d(1) = 5
d(2) = 6
PRINT sum&(d(), 3)
FUNCTION sum& (a() AS INTEGER, n AS INTEGER)
  DIM r AS acc
  FOR i% = 0 TO n
    r.total = r.total + a(i%)
    r.cnt = r.cnt + 1
  NEXT i%
  sum& = r.total
END FUNCTION
''')

P('static_sub', '''
tick
tick
SUB tick STATIC
  n% = n% + 1
  PRINT n%
END SUB
''')

P('while_in_if_in_sub', '''
go 2
SUB go (n AS INTEGER)
  IF n > 0 THEN
    WHILE n > 0
      n = n - 1
    WEND
  ELSEIF n = 0 THEN
    PRINT "zero"
  ELSE
    DO UNTIL n = 0
      n = n + 1
    LOOP
  END IF
END SUB
''')

P('misc_statements', '''
CLS
RANDOMIZE 1
x! = RND
t! = TIMER
BEEP
COLOR 7, 0
LOCATE 1, 1
PRINT "x"
k$ = INKEY$
''')

P('gosub_in_loop', '''
FOR i% = 1 TO 2
  GOSUB show
NEXT i%
END
show:
IF i% = 1 THEN
  PRINT "first"
ELSE
  PRINT "other"
END IF
RETURN
''')

P('data_in_blocks', '''
RESTORE nums
DO
  READ n%
  IF n% = 0 THEN EXIT DO
  PRINT n%
LOOP
nums:
DATA 5, 6, 7
DATA 0
''')

P('empty_blocks', '''
IF 1 THEN
END IF
FOR i% = 1 TO 1
NEXT
DO
  EXIT DO
LOOP
WHILE 0
WEND
SELECT CASE 1
END SELECT
''')


# characters that str.splitlines() treats as line boundaries but the language does not
# (form feed, vertical tab, FS/GS/RS/US; NEL U+0085 is left out: it is not a cp437
# character, and a literal holding it fails in the assembler - finding D36 of C06, not a static rule): inside a literal, a comment, a DATA item, a REM
P('control_chars_inside_lines', '''
s$ = "a\x0cb" + "c\x0bd"
PRINT s$; "x\x1cy\x1dz\x1ew" ' note \x0c more \x0b text
DATA p\x0cq, "r\x1fs"
READ a$, b$
PRINT a$; b$
REM tail \x0c NEXT \x1c WEND
''')


def base_programs():
    return list(_P)
