import glob, os, sys
sys.path.insert(0, os.path.dirname(os.path.abspath(__file__)))
import vlib
try:
    import gen_tables
    gen_tables.main()
except ImportError:
    pass
with vlib.Lock():
    ok, log = vlib.coq_make([], timeout=3000)
    if not ok:
        print(log[-6000:]); sys.exit(1)
    for f in sorted(glob.glob(os.path.join(vlib.COQ, 'Extract', 'X*.v'))):
        name = os.path.basename(f)[1:-2]
        try:
            print('model', vlib.build_model(name))
        except vlib.BuildError as e:
            print(e.what); print(e.log[-4000:]); sys.exit(1)
print('setup ok')
