import glob, os, sys
sys.path.insert(0, os.path.dirname(os.path.abspath(__file__)))
import vlib
try:
    import gen_tables
    gen_tables.main()
except ImportError:
    pass
with vlib.Lock():
    # the Extraction commands of Extract/X*.v write into build/x/<name>/: from a
    # clean build/ these directories must exist before the full make
    for f in sorted(glob.glob(os.path.join(vlib.COQ, 'Extract', 'X*.v'))):
        os.makedirs(os.path.join(vlib.BUILD, 'x', os.path.basename(f)[1:-2]), exist_ok=True)
    ok, log = vlib.coq_make([], timeout=3000)
    if not ok:
        print(log[-6000:]); sys.exit(1)
    for f in sorted(glob.glob(os.path.join(vlib.COQ, 'Extract', 'X*.v'))):
        name = os.path.basename(f)[1:-2]
        try:
            print('model', vlib.build_model(name))
        except vlib.BuildError as e:
            print(e.what); print(e.log[-4000:]); sys.exit(1)
print('setup ok')
