"""Confirms an independently written seeded change and runs the registered check
against it.   usage: seedtest.py <src-dir> <id e.g. C05-1> [--tier quick] [--no-suite]

<src-dir> holds patch.diff, demo.py, meta.json (written by a sub-agent that saw
only the property text).  Steps, all in a scratch worktree of /repo under /tmp
(removed at the end; /repo itself is never touched):
  1. demo.py on the pristine tree            -> must exit 0
  2. git apply patch.diff; demo.py           -> must exit 1
  3. the repository's test suite with the patch (pytest -n 8) -> must pass
  4. QBEE_REPO=<worktree> ./check Cxx --tier <tier>  (the check reads the
     repository only through vlib.REPO, so this is the same as applying the
     patch in /repo and undoing it afterwards)
Results go to /verif/seeded/<id>/ (patch.diff, demo.py, meta.json)."""
import json, os, shutil, subprocess, sys

VERIF = os.path.dirname(os.path.dirname(os.path.abspath(__file__)))


def sh(cmd, cwd=None, env=None, timeout=3600):
    p = subprocess.run(cmd, cwd=cwd, env=env, shell=isinstance(cmd, str), timeout=timeout,
                       stdout=subprocess.PIPE, stderr=subprocess.STDOUT, text=True)
    return p.returncode, p.stdout


def main():
    src, sid = sys.argv[1], sys.argv[2]
    tier = sys.argv[sys.argv.index('--tier') + 1] if '--tier' in sys.argv else 'quick'
    prop = sid.split('-')[0]
    wt = f'/tmp/sw-{sid}'
    sh(f'git -C /repo worktree remove --force {wt}')
    rc, out = sh(f'git -C /repo worktree add --detach {wt} HEAD')
    assert rc == 0, out
    conf = {}
    try:
        demo = os.path.join(src, 'demo.py')
        conf['demo_pristine_exit'] = sh(['/venv/bin/python', demo, wt], timeout=600)[0]
        rc, out = sh(['git', 'apply', os.path.join(os.path.abspath(src), 'patch.diff')], cwd=wt)
        conf['applied'] = (rc == 0)
        if rc != 0:
            conf['apply_error'] = out[-500:]
        conf['demo_patched_exit'] = sh(['/venv/bin/python', demo, wt], timeout=600)[0]
        if '--no-suite' not in sys.argv:
            rc, out = sh('/venv/bin/python -m pytest -q -p no:cacheprovider --timeout=900 -n 8 2>&1 | tail -3',
                         cwd=wt, timeout=3000)
            conf['test_suite_with_patch'] = out.strip().split('\n')[-1]
        env = dict(os.environ)
        env['QBEE_REPO'] = wt
        rc, out = sh(['./check', prop, '--tier', tier], cwd=VERIF, env=env, timeout=7200)
        lines = out.split('\n')
        det = {'exit': rc,
               'violation_lines': [l for l in lines if l.startswith('VIOLATION')][:6],
               'summary': [l for l in lines if ' tier=' in l][:1]}
        sigs = []
        for l in det['violation_lines']:
            for w in l.split():
                if w.startswith('replay='):
                    try:
                        r = json.load(open(w[7:]))
                        sigs.append(r.get('signature') or r.get('no_longer_checks'))
                    except Exception as e:
                        sigs.append(str(e))
        det['signatures'] = sigs
    finally:
        sh(f'git -C /repo worktree remove --force {wt}')
        sh('git checkout -- coq/Gen', cwd=VERIF)
    dst = os.path.join(VERIF, 'seeded', sid)
    os.makedirs(dst, exist_ok=True)
    for f in ('patch.diff', 'demo.py'):
        shutil.copy(os.path.join(src, f), os.path.join(dst, f))
    meta = json.load(open(os.path.join(src, 'meta.json')))
    meta['confirmed_by_me'] = conf
    meta['what_i_ran'] = ('tools/seedtest.py: scratch worktree of /repo; demo.py on the pristine tree, git apply '
                          'patch.diff, demo.py again, full repository test suite with the patch, then the registered '
                          f'{tier} check with QBEE_REPO pointing at the patched worktree')
    meta.setdefault('check_runs', []).append(det)
    json.dump(meta, open(os.path.join(dst, 'meta.json'), 'w'), indent=1)
    print(sid, json.dumps(conf), json.dumps(det)[:1500])


main()
